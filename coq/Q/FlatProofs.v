(** Layer Q: the flat queue refines the boxed queue (single-queue level).

    [repr m pos items endp]: the block memory [m] holds, from address [pos] to exactly [endp], the
    items [items] laid out the way HVec::push lays them out (VP word, padding to the item's alignment,
    the item's bytes, padding to 8).  [chain_inv] lifts that to a FnOnceQueue with its chained older
    buffers and relates it to the list of pending closures (= the state of the boxed queue). *)
From Coq Require Import ZArith List Bool Lia.
From Stk Require Import Lib.U Gen.SrcFlat Q.Monitor Q.Arith Q.Flat Q.Boxed Q.MemProofs.
Import ListNotations.
Local Open Scope Z_scope.
Ltac Zify.zify_post_hook ::= Z.div_mod_to_equations.
Local Arguments wr_list : simpl never.
Local Arguments rd_list : simpl never.
Local Arguments vp_cells : simpl never.
Local Arguments word_cells : simpl never.

(* ------------------------------------------------------------------ *)
(** * Layout of items in a block *)

Definition bitem : Type := vtab * list cell.

Definition vt_wf (vt : vtab) (cs : list cell) : Prop :=
  (exists k, 0 <= k /\ vt_align vt = 2 ^ k) /\ 0 <= vt_size vt /\ Z.of_nat (length cs) = vt_size vt.

(** address of the item's bytes and of the next VP for an item whose VP is at [pos] *)
Definition data_addr (pos : Z) (vt : vtab) : Z := up (pos + 8) (vt_align vt).
Definition next_addr (pos : Z) (vt : vtab) : Z := up (data_addr pos vt + vt_size vt) 8.

Fixpoint repr (m : mem) (pos : Z) (items : list bitem) (endp : Z) : Prop :=
  match items with
  | [] => pos = endp
  | (vt, cs) :: rest =>
      vt_wf vt cs /\ pos mod 8 = 0 /\
      rd_list m pos 8 = vp_cells vt /\
      rd_list m (data_addr pos vt) (length cs) = cs /\
      next_addr pos vt < W64 /\
      repr m (next_addr pos vt) rest endp
  end.

Lemma vt_wf_align_pos vt cs : vt_wf vt cs -> 0 < vt_align vt.
Proof. intros [(k & Hk & ->) _]. apply pow2_pos; assumption. Qed.

(** geometry of one item: VP word, then data, then next, in this order *)
Lemma item_geometry pos vt cs : vt_wf vt cs ->
  pos + 8 <= data_addr pos vt /\ data_addr pos vt + vt_size vt <= next_addr pos vt /\
  next_addr pos vt mod 8 = 0 /\ data_addr pos vt mod vt_align vt = 0.
Proof.
  intros H. pose proof (vt_wf_align_pos _ _ H) as Ha. destruct H as (_ & Hs & _).
  unfold next_addr, data_addr.
  pose proof (up_ge (pos + 8) (vt_align vt) Ha).
  pose proof (up_ge (up (pos + 8) (vt_align vt) + vt_size vt) 8 ltac:(lia)).
  pose proof (up_mod (up (pos + 8) (vt_align vt) + vt_size vt) 8 ltac:(lia)).
  pose proof (up_mod (pos + 8) (vt_align vt) Ha).
  auto.
Qed.

Lemma repr_le m items : forall pos endp, repr m pos items endp ->
  pos + 8 * Z.of_nat (length items) <= endp.
Proof.
  induction items as [|[vt cs] rest IH]; intros pos endp H; cbn [repr length] in *.
  - lia.
  - destruct H as (Hwf & _ & _ & _ & _ & Hr). apply IH in Hr.
    pose proof (item_geometry pos vt cs Hwf). destruct Hwf as (_ & Hs & _). lia.
Qed.

Lemma repr_pos_mod8 m items pos endp : pos mod 8 = 0 -> repr m pos items endp -> endp mod 8 = 0.
Proof.
  revert pos. induction items as [|[vt cs] rest IH]; intros pos Hp H; cbn [repr] in H.
  - subst. assumption.
  - destruct H as (Hwf & _ & _ & _ & _ & Hr). eapply IH; [|exact Hr].
    apply (item_geometry pos vt cs Hwf).
Qed.

(** frame: [repr] only depends on the cells in [pos, endp) *)
Lemma repr_frame m m' items : forall pos endp,
  (forall a, pos <= a < endp -> rd m' a = rd m a) ->
  repr m pos items endp -> repr m' pos items endp.
Proof.
  induction items as [|[vt cs] rest IH]; intros pos endp Hf H; cbn [repr] in *; [assumption|].
  destruct H as (Hwf & Hp & Hvp & Hd & Hlt & Hr).
  pose proof (item_geometry pos vt cs Hwf) as (G1 & G2 & _ & _).
  pose proof (repr_le _ _ _ _ Hr) as Hle.
  pose proof Hwf as (Hk & Hs & Hlen).
  split; [assumption|]. split; [assumption|]. split; [|split; [|split; [assumption|]]].
  - rewrite <- Hvp. apply rd_list_ext. intros a Ha. apply Hf. lia.
  - rewrite <- Hd at 2. apply rd_list_ext. intros a Ha. apply Hf. lia.
  - apply IH; [|assumption]. intros a Ha. apply Hf. lia.
Qed.

Lemma repr_app m its1 : forall pos mid its2 endp,
  repr m pos its1 mid -> repr m mid its2 endp -> repr m pos (its1 ++ its2) endp.
Proof.
  induction its1 as [|[vt cs] rest IH]; intros pos mid its2 endp H1 H2; cbn [repr app] in *.
  - subst. assumption.
  - destruct H1 as (Hwf & Hp & Hvp & Hd & Hlt & Hr).
    do 5 (split; [assumption|]). eapply IH; eassumption.
Qed.

(* ------------------------------------------------------------------ *)
(** * The unsafe block of HVec::push *)

(** capacity: unallocated, or a power of two of at least INITIAL_ALLOCATION *)
Definition cap_ok (cap : Z) : Prop := cap = 0 \/ exists j, 0 <= j /\ cap = 2 ^ j /\ INITIAL_ALLOCATION <= cap.

Definition hv_wf (h : hvec) : Prop :=
  0 <= hv_base h /\ hv_base h mod 8 = 0 /\ 0 <= hv_len h <= hv_cap h /\ hv_len h mod 8 = 0 /\ cap_ok (hv_cap h).

(** what a successful [hv_write] did *)
Lemma hv_write_ok h vt cs h' : hv_wf h -> vt_wf vt cs -> hv_write h vt cs = Ok h' ->
  let p := hv_base h + hv_len h in
  hv_base h' = hv_base h /\ hv_cap h' = hv_cap h /\
  hv_base h' + hv_len h' = next_addr p vt /\
  hv_wf h' /\
  repr (hv_mem h') p [(vt, cs)] (next_addr p vt) /\
  (forall a, a < p -> rd (hv_mem h') a = rd (hv_mem h) a) /\
  (* the accesses were in bounds and aligned *)
  flat_access_ok h p 8 8 = true /\ flat_access_ok h (data_addr p vt) (vt_size vt) (vt_align vt) = true.
Proof.
  intros (Hb0 & Hb8 & Hlen & Hl8 & Hcapok) Hwf. pose proof Hwf as ((k & Hk & Ha) & Hs & Hcs).
  unfold hv_write.
  set (p := hv_base h + hv_len h).
  destruct (p mod 8 =? 0) eqn:Ep8; cbn [negb]; [|discriminate]. apply Z.eqb_eq in Ep8.
  destruct (in_bounds h p 8) eqn:Eb1; cbn [negb]; [|discriminate].
  destruct (align_ptr (p + 8) (vt_align vt)) as [p2|] eqn:E2; cbn [olift rbind]; [|discriminate].
  rewrite Ha in E2. apply align_ptr_some in E2; [|assumption|lia]. rewrite <- Ha in E2.
  destruct E2 as [-> Hp2]. fold (data_addr p vt).
  pose proof (item_geometry p vt cs Hwf) as (G1 & G2 & G3 & G4).
  pose proof (vt_wf_align_pos _ _ Hwf) as Hapos.
  unfold cmod. replace (vt_align vt =? 0) with false by (symmetry; apply Z.eqb_neq; lia).
  cbn [olift rbind]. rewrite G4. cbn [Z.eqb negb].
  destruct (in_bounds h (data_addr p vt) (vt_size vt)) eqn:Eb2; cbn [negb]; [|discriminate].
  destruct (align_ptr (data_addr p vt + vt_size vt) 8) as [p4|] eqn:E4; cbn [olift rbind]; [|discriminate].
  apply align_ptr_some8 in E4; [|lia]. destruct E4 as [-> Hp4]. fold (next_addr p vt) in *.
  unfold csub. destruct (hv_base h <=? next_addr p vt) eqn:E5; cbn [olift rbind]; [|discriminate].
  destruct (next_addr p vt - hv_base h >? hv_cap h) eqn:E6; [discriminate|].
  intros H. injection H as <-. cbn [hv_base hv_len hv_cap hv_mem].
  apply Z.leb_le in E5. rewrite Z.gtb_ltb in E6. apply Z.ltb_ge in E6.
  split; [reflexivity|]. split; [reflexivity|]. split; [lia|].
  split. { unfold hv_wf; cbn [hv_base hv_len hv_cap hv_mem]. repeat split; try lia; assumption. }
  split.
  { cbn [repr]. split; [assumption|]. split; [assumption|]. split; [|split; [|split; [assumption|reflexivity]]].
    - (* VP word survives the data write *)
      rewrite rd_list_wr_list_disj by (rewrite Hcs; cbn; lia).
      change 8%nat with (length (vp_cells vt)). apply rd_list_wr_list_same.
    - apply rd_list_wr_list_same. }
  split.
  { intros a Ha'. rewrite rd_wr_list_out by lia. apply rd_wr_list_out. lia. }
  unfold flat_access_ok. rewrite Eb1, Eb2, Ep8, G4. cbn.
  replace (0 <? vt_align vt) with true by (symmetry; apply Z.ltb_lt; lia). auto.
Qed.

(** appending an item to a represented block *)
Lemma hv_write_snoc h vt cs h' items : hv_wf h -> vt_wf vt cs -> hv_write h vt cs = Ok h' ->
  repr (hv_mem h) (hv_base h) items (hv_base h + hv_len h) ->
  repr (hv_mem h') (hv_base h') (items ++ [(vt, cs)]) (hv_base h' + hv_len h').
Proof.
  intros Hwf Hvt Hw Hr.
  destruct (hv_write_ok _ _ _ _ Hwf Hvt Hw) as (Eb & Ec & El & Hwf' & Hr1 & Hfr & _).
  rewrite El, Eb. eapply repr_app; [|exact Hr1].
  eapply repr_frame; [|exact Hr]. intros a Ha. apply Hfr. lia.
Qed.

(** [hv_write] succeeds when the worst-case requirement fits (this is why the space check of
    HVec::push on [req] alone is sound) *)
Lemma hv_write_total h vt cs : hv_wf h -> vt_wf vt cs ->
  hv_len h + req_spec (vt_size vt) (vt_align vt) <= hv_cap h ->
  hv_base h + hv_cap h < W64 ->
  exists h', hv_write h vt cs = Ok h'.
Proof.
  intros (Hb0 & Hb8 & Hlen & Hl8 & Hcapok) Hwf Hreq Hsp. pose proof Hwf as ((k & Hk & Ha) & Hs & Hcs).
  set (p := hv_base h + hv_len h).
  assert (Ep8 : p mod 8 = 0). { subst p. rewrite Zplus_mod, Hb8, Hl8. reflexivity. }
  pose proof (item_geometry p vt cs Hwf) as (G1 & G2 & G3 & G4).
  pose proof (vt_wf_align_pos _ _ Hwf) as Hapos.
  pose proof (consumption_le_req p (vt_size vt) k Hk Hs Ep8) as Hc. rewrite <- Ha in Hc.
  fold (data_addr p vt) in Hc. fold (next_addr p vt) in Hc.
  assert (Hreq0 : 0 <= req_spec (vt_size vt) (vt_align vt)).
  { unfold req_spec. pose proof (up_ge (Z.max 8 (vt_align vt) + vt_size vt) 8). lia. }
  unfold hv_write. fold p. rewrite Ep8. cbn [Z.eqb negb].
  unfold in_bounds.
  replace ((hv_base h <=? p) && (p + 8 <=? hv_base h + hv_cap h)) with true
    by (symmetry; apply andb_true_iff; split; apply Z.leb_le; lia).
  cbn [negb]. rewrite Ha. rewrite align_ptr_total; [|assumption|lia|rewrite <- Ha; fold (data_addr p vt); lia].
  rewrite <- Ha. fold (data_addr p vt). cbn [olift rbind].
  unfold cmod. replace (vt_align vt =? 0) with false by (symmetry; apply Z.eqb_neq; lia).
  cbn [olift rbind]. rewrite G4. cbn [Z.eqb negb].
  replace ((hv_base h <=? data_addr p vt) && (data_addr p vt + vt_size vt <=? hv_base h + hv_cap h)) with true
    by (symmetry; apply andb_true_iff; split; apply Z.leb_le; lia).
  cbn [negb].
  rewrite align_ptr_total8; [|lia|fold (next_addr p vt); lia].
  fold (next_addr p vt). cbn [olift rbind].
  unfold csub. replace (hv_base h <=? next_addr p vt) with true by (symmetry; apply Z.leb_le; lia).
  cbn [olift rbind].
  replace (next_addr p vt - hv_base h >? hv_cap h) with false
    by (symmetry; rewrite Z.gtb_ltb; apply Z.ltb_ge; lia).
  eauto.
Qed.

(* ------------------------------------------------------------------ *)
(** * The drain walk reads back exactly what was pushed *)

Definition entry_wf (e : entry) : Prop :=
  0 <= e_size e /\ (exists k, 0 <= k /\ e_align e = 2 ^ k) /\ Z.of_nat (length (e_data e)) = e_size e.

Definition enc_user (e : entry) : bitem := (user_vt e, user_cells e).
Definition enc_chain (old : hvec) : bitem := (chain_vt, chain_cells old).

Lemma enc_user_wf e : entry_wf e -> vt_wf (user_vt e) (user_cells e).
Proof.
  intros (Hs & Hk & Hl). unfold vt_wf, user_vt, user_cells. cbn [vt_align vt_size].
  rewrite map_length. auto.
Qed.

Lemma enc_chain_wf old : vt_wf chain_vt (chain_cells old).
Proof.
  unfold vt_wf, chain_vt, chain_cells. cbn [vt_align vt_size].
  split; [exists 3; split; [lia|reflexivity]|]. split; [vm_compute; discriminate|].
  rewrite !app_length, !word_cells_length. reflexivity.
Qed.

(** what the callback of [drain_for_each] sees for the item at [pos], given only the vtable word *)
Definition item_out (on_chain : Z -> Z -> Z -> res (list entry)) (h : hvec) (pos : Z) (vt : vtab)
  : res (list entry) :=
  let dp := data_addr pos vt in
  match vt_kind vt with
  | VUser id =>
    match dec_bytes (rd_list (hv_mem h) dp (Z.to_nat (vt_size vt))) with
    | None => Err EBadCell
    | Some bs => Ok [ {| e_id := id; e_size := vt_size vt; e_align := vt_align vt; e_data := bs |} ]
    end
  | VChain =>
    match dec_word (rd_list (hv_mem h) dp 8),
          dec_word (rd_list (hv_mem h) (dp + 8) 8),
          dec_word (rd_list (hv_mem h) (dp + 16) 8) with
    | Some b, Some l, Some c => on_chain b l c
    | _, _, _ => Err EBadCell
    end
  end.

(** one iteration of the walk over a represented block: every check passes *)
Lemma walk_step oc h fuel pos endp vt cs rest :
  repr (hv_mem h) pos ((vt, cs) :: rest) endp ->
  0 <= pos -> hv_base h <= pos -> endp <= hv_base h + hv_cap h ->
  walk oc h (S fuel) pos endp =
    (mine <-! item_out oc h pos vt ;;
     r <-! walk oc h fuel (next_addr pos vt) endp ;;
     Ok (mine ++ r)).
Proof.
  intros Hr Hp0 Hb He. cbn [repr] in Hr. destruct Hr as (Hwf & Hp8 & Hvp & Hd & Hlt & Hr).
  pose proof (item_geometry pos vt cs Hwf) as (G1 & G2 & G3 & G4).
  pose proof (vt_wf_align_pos _ _ Hwf) as Hapos.
  pose proof (repr_le _ _ _ _ Hr) as Hle.
  pose proof Hwf as ((k & Hk & Ha) & Hs & Hcs).
  cbn [walk].
  replace (pos <? endp) with true by (symmetry; apply Z.ltb_lt; lia).
  unfold in_bounds.
  replace ((hv_base h <=? pos) && (pos + 8 <=? hv_base h + hv_cap h)) with true
    by (symmetry; apply andb_true_iff; split; apply Z.leb_le; lia).
  cbn [negb]. rewrite Hvp, dec_vp_cells.
  replace (pos + 8 >? endp) with false by (symmetry; rewrite Z.gtb_ltb; apply Z.ltb_ge; lia).
  rewrite Hp8. cbn [Z.eqb negb].
  rewrite Ha. rewrite align_ptr_total; [|assumption|lia|rewrite <- Ha; fold (data_addr pos vt); lia].
  rewrite <- Ha. fold (data_addr pos vt). cbn [olift rbind].
  rewrite align_ptr_total8; [|lia|fold (next_addr pos vt); lia].
  fold (next_addr pos vt). cbn [olift rbind].
  replace (next_addr pos vt >? endp) with false by (symmetry; rewrite Z.gtb_ltb; apply Z.ltb_ge; lia).
  unfold cmod. replace (vt_align vt =? 0) with false by (symmetry; apply Z.eqb_neq; lia).
  cbn [olift rbind]. rewrite G4. cbn [Z.eqb negb].
  replace ((hv_base h <=? data_addr pos vt) && (data_addr pos vt + vt_size vt <=? hv_base h + hv_cap h)) with true
    by (symmetry; apply andb_true_iff; split; apply Z.leb_le; lia).
  cbn [negb]. reflexivity.
Qed.

Lemma walk_users oc h : forall us fuel pos endp,
  repr (hv_mem h) pos (map enc_user us) endp ->
  0 <= pos -> hv_base h <= pos -> endp <= hv_base h + hv_cap h ->
  (length us < fuel)%nat ->
  walk oc h fuel pos endp = Ok us.
Proof.
  induction us as [|e us IH]; intros fuel pos endp Hr Hp0 Hb He Hf;
    (destruct fuel as [|fuel]; [lia|]).
  - cbn [map repr] in Hr. subst. cbn [walk]. rewrite Z.ltb_irrefl. reflexivity.
  - cbn [map] in Hr. unfold enc_user at 1 in Hr.
    rewrite (walk_step _ _ _ _ _ _ _ _ Hr Hp0 Hb He).
    cbn [repr] in Hr. destruct Hr as (Hwf & Hp8 & Hvp & Hd & Hlt & Hr).
    pose proof (item_geometry pos _ _ Hwf) as (G1 & G2 & G3 & G4).
    destruct Hwf as (_ & Hs & Hcs).
    unfold item_out. cbn [user_vt vt_kind vt_size vt_align] in *.
    replace (Z.to_nat (e_size e)) with (length (user_cells e)) by lia.
    rewrite Hd. unfold user_cells. rewrite dec_bytes_map. cbn [rbind].
    rewrite IH; [|exact Hr|lia|lia|lia|cbn [length] in Hf; lia].
    cbn [rbind app]. destruct e; reflexivity.
Qed.

Lemma app_inv_len {A} (a c b d : list A) : length a = length c -> a ++ b = c ++ d -> a = c /\ b = d.
Proof.
  revert c. induction a as [|x a IH]; intros [|y c] Hl H; cbn in *; try discriminate; auto.
  injection H as -> H. injection Hl as Hl. destruct (IH c Hl H) as [-> ->]. auto.
Qed.

(** the chain item at the head of a block hands the old buffer's geometry to the callback *)
Lemma walk_chain oc h old us fuel olds :
  repr (hv_mem h) (hv_base h) (enc_chain old :: map enc_user us) (hv_base h + hv_len h) ->
  0 <= hv_base h -> hv_len h <= hv_cap h ->
  (length us < fuel)%nat ->
  oc (hv_base old) (hv_len old) (hv_cap old) = Ok olds ->
  walk oc h (S fuel) (hv_base h) (hv_base h + hv_len h) = Ok (olds ++ us).
Proof.
  set (pos := hv_base h). intros Hr Hp0 Hc Hf Hoc. unfold enc_chain in Hr.
  rewrite (walk_step _ _ _ _ _ _ _ _ Hr Hp0 ltac:(lia) ltac:(lia)).
  cbn [repr] in Hr. destruct Hr as (Hwf & Hp8 & Hvp & Hd & Hlt & Hr).
  pose proof (item_geometry pos _ _ Hwf) as (G1 & G2 & G3 & G4).
  pose proof (repr_le _ _ _ _ Hr) as Hle.
  pose proof Hwf as (_ & Hs & _).
  assert (Epos : pos = hv_base h) by reflexivity.
  unfold item_out. cbn [chain_vt vt_kind].
  set (dp := data_addr pos chain_vt) in *.
  assert (E : rd_list (hv_mem h) dp 24 = chain_cells old).
  { transitivity (rd_list (hv_mem h) dp (length (chain_cells old))); [|exact Hd].
    reflexivity. }
  change 24%nat with (8 + (8 + 8))%nat in E. rewrite !rd_list_app in E.
  unfold chain_cells in E.
  apply app_inv_len in E; [|rewrite rd_list_length, word_cells_length; reflexivity].
  destruct E as [E1 E2].
  apply app_inv_len in E2; [|rewrite rd_list_length, word_cells_length; reflexivity].
  destruct E2 as [E2 E3].
  change (Z.of_nat 8) with 8 in *.
  replace (dp + 8 + 8) with (dp + 16) in E3 by lia.
  rewrite E1, E2, E3, !dec_word_cells, Hoc. cbn [rbind].
  rewrite (walk_users oc h us fuel _ _ Hr); [reflexivity|lia|lia|lia|assumption].
Qed.

(* ------------------------------------------------------------------ *)
(** * The queue invariant and the abstraction to the list of pending closures *)

(** [chain_inv chain h ents]: the buffer [h], whose chained older buffers are [chain] (newest first),
    holds exactly the closures [ents], oldest first. *)
Fixpoint chain_inv (chain : list hvec) (h : hvec) (ents : list entry) : Prop :=
  hv_wf h /\
  match chain with
  | [] =>
      repr (hv_mem h) (hv_base h) (map enc_user ents) (hv_base h + hv_len h) /\ Forall entry_wf ents
  | old :: rest =>
      exists olds us, ents = olds ++ us /\ chain_inv rest old olds /\ hv_len old <> 0 /\
        repr (hv_mem h) (hv_base h) (enc_chain old :: map enc_user us) (hv_base h + hv_len h) /\
        Forall entry_wf us
  end.

Definition fq_inv (q : fq) (ents : list entry) : Prop := chain_inv (fq_chain q) (fq_cur q) ents.

Lemma chain_inv_wf chain h ents : chain_inv chain h ents -> hv_wf h.
Proof. destruct chain; cbn [chain_inv]; intros [H _]; exact H. Qed.

Lemma chain_inv_entries_wf chain : forall h ents, chain_inv chain h ents -> Forall entry_wf ents.
Proof.
  induction chain as [|old rest IH]; intros h ents; cbn [chain_inv].
  - intros (_ & _ & H). exact H.
  - intros (_ & olds & us & -> & Hc & _ & _ & Hu). apply Forall_app. split; [eapply IH; eassumption|assumption].
Qed.

(** is_empty: len = 0 exactly when nothing is pending *)
Lemma chain_inv_empty chain : forall h ents, chain_inv chain h ents -> (hv_len h = 0 <-> ents = []).
Proof.
  induction chain as [|old rest IH]; intros h ents; cbn [chain_inv].
  - intros (_ & Hr & _). split.
    + intros H0. apply repr_le in Hr. rewrite map_length in Hr. destruct ents; [reflexivity|cbn [length] in Hr; lia].
    + intros ->. cbn [map repr] in Hr. lia.
  - intros (_ & olds & us & -> & Hc & Hn & Hr & _). split.
    + intros H0. apply repr_le in Hr. cbn [length] in Hr. lia.
    + intros E. apply app_eq_nil in E. destruct E as [-> _]. apply IH in Hc. tauto.
Qed.

(** drain_for_each delivers exactly the pending closures, in order (chained buffers first) *)
Lemma drain_spec chain : forall h ents, chain_inv chain h ents -> drain_hv chain h = Ok ents.
Proof.
  induction chain as [|old rest IH]; intros h ents; cbn [chain_inv drain_hv].
  - intros ((Hb0 & Hb8 & Hlen & Hl8 & Hcapok) & Hr & _).
    apply walk_users; [exact Hr|lia|lia|lia|].
    apply repr_le in Hr. rewrite map_length in Hr. lia.
  - intros ((Hb0 & Hb8 & Hlen & Hl8 & Hcapok) & olds & us & -> & Hc & Hn & Hr & _).
    apply walk_chain with (old := old); [exact Hr|lia|lia| |].
    + apply repr_le in Hr. cbn [length] in Hr. rewrite map_length in Hr. lia.
    + rewrite !Z.eqb_refl. cbn [andb]. apply IH. exact Hc.
Qed.

Lemma fq_inv_new : fq_inv fq_new [].
Proof.
  unfold fq_inv, fq_new, hv_new. cbn [fq_chain fq_cur chain_inv hv_base hv_len hv_cap hv_mem map repr].
  unfold hv_wf, cap_ok. cbn [hv_base hv_len hv_cap]. repeat split; try lia; auto.
Qed.

(** appending a closure to the current buffer *)
Lemma chain_inv_write chain h ents e h' : chain_inv chain h ents -> entry_wf e ->
  hv_write h (user_vt e) (user_cells e) = Ok h' -> chain_inv chain h' (ents ++ [e]).
Proof.
  intros Hc He Hw. pose proof (chain_inv_wf _ _ _ Hc) as Hwf.
  pose proof (enc_user_wf e He) as Hvt.
  destruct (hv_write_ok _ _ _ _ Hwf Hvt Hw) as (_ & _ & _ & Hwf' & _).
  destruct chain as [|old rest]; cbn [chain_inv] in *.
  - destruct Hc as (_ & Hr & Hf). split; [assumption|]. split.
    + rewrite map_app. cbn [map]. eapply (hv_write_snoc h); eassumption.
    + apply Forall_app; auto.
  - destruct Hc as (_ & olds & us & -> & Hc & Hn & Hr & Hf). split; [assumption|].
    exists olds, (us ++ [e]). split; [symmetry; apply app_assoc|]. split; [assumption|]. split; [assumption|]. split.
    + rewrite map_app. cbn [map]. change (enc_chain old :: map enc_user us ++ [enc_user e])
        with ((enc_chain old :: map enc_user us) ++ [enc_user e]).
      eapply (hv_write_snoc h); eassumption.
    + apply Forall_app; auto.
Qed.

Definition base_ok (b : Z) : Prop := 0 <= b /\ b mod 8 = 0.

Lemma hv_with_size_ok size b h : hv_with_size size b = Ok h ->
  h = {| hv_base := b; hv_len := 0; hv_cap := size; hv_mem := mem_empty |} /\ size <= LAYOUT_MAX.
Proof.
  unfold hv_with_size. destruct (size >? LAYOUT_MAX) eqn:E; [discriminate|].
  intros H. injection H as <-. rewrite Z.gtb_ltb in E. apply Z.ltb_ge in E. auto.
Qed.

(** expand_storage keeps the pending closures and makes room for [req] *)
Lemma expand_spec q ents req nb q1 : fq_inv q ents -> base_ok nb -> 0 <= req ->
  expand_storage q req nb = Ok q1 ->
  fq_inv q1 ents /\ hv_len (fq_cur q1) + req <= hv_cap (fq_cur q1) /\ hv_base (fq_cur q1) = nb /\
  (exists j, 0 <= j /\ hv_cap (fq_cur q1) = 2 ^ j) /\ INITIAL_ALLOCATION <= hv_cap (fq_cur q1) /\
  hv_cap (fq_cur q) < hv_cap (fq_cur q1) /\
  hv_cap (fq_cur q1) <= Z.max (2 * INITIAL_ALLOCATION) (2 * Z.max (hv_cap (fq_cur q)) (req + 32)).
Proof.
  intros Hinv (Hnb0 & Hnb8) Hreq. unfold expand_storage.
  pose proof (chain_inv_wf _ _ _ Hinv) as (Hb0 & Hb8 & Hlen & Hl8 & Hcapok).
  destruct (hv_len (fq_cur q) =? 0) eqn:E0; cbn [negb].
  - (* the old buffer is empty: it is dropped *)
    apply Z.eqb_eq in E0. cbn [olift rbind].
    destruct (expand_size _ _) as [size|] eqn:Es; cbn [olift rbind]; [|discriminate].
    apply expand_size_some in Es; [|lia|lia]. destruct Es as (j & Hj & -> & Hia & Hc1 & Hc2 & Hc3 & _).
    pose proof (pow2_pos j Hj) as Hjpos.
    destruct (hv_with_size _ _) as [new|] eqn:En; cbn [rbind]; [|discriminate].
    apply hv_with_size_ok in En. destruct En as [-> _]. cbn [fq_cur hv_cap hv_len hv_base].
    unfold csub. replace (0 <=? 2 ^ j) with true by (symmetry; apply Z.leb_le; lia). cbn [olift rbind].
    destruct (2 ^ j - 0 <? req) eqn:Ea; [discriminate|]. apply Z.ltb_ge in Ea.
    intros H. injection H as <-. cbn [fq_cur fq_chain hv_cap hv_len hv_base].
    assert (ents = []) as -> by (eapply chain_inv_empty; eassumption).
    split; [|split; [lia|split; [reflexivity|split; [eauto|lia]]]].
    unfold fq_inv. cbn [fq_cur fq_chain chain_inv map repr hv_base hv_len hv_mem].
    unfold hv_wf, cap_ok. cbn [hv_base hv_len hv_cap]. repeat split; try lia; auto. right. eauto.
  - (* the old buffer becomes the first item of the new one *)
    apply Z.eqb_neq in E0.
    unfold cadd64 at 1. destruct (req + CHAIN_ITEM_SIZE <? _) eqn:Eo; cbn [olift rbind]; [|discriminate].
    destruct (expand_size _ _) as [size|] eqn:Es; cbn [olift rbind]; [|discriminate].
    change CHAIN_ITEM_SIZE with 32 in *.
    apply expand_size_some in Es; [|lia|lia]. destruct Es as (j & Hj & -> & Hia & Hc1 & Hc2 & Hc3 & _).
    pose proof (pow2_pos j Hj) as Hjpos.
    destruct (hv_with_size _ _) as [new|] eqn:En; cbn [rbind]; [|discriminate].
    apply hv_with_size_ok in En. destruct En as [-> _].
    change (push_req CHAIN_PAYLOAD 8) with (push_req (CHAIN_ITEM_SIZE - 8) 8). rewrite chain_req.
    cbn [olift rbind hv_cap hv_len]. change CHAIN_ITEM_SIZE with 32.
    unfold csub at 1. replace (0 <=? 2 ^ j) with true by (symmetry; apply Z.leb_le; lia). cbn [olift rbind].
    destruct (32 >? 2 ^ j - 0) eqn:Ec; [discriminate|].
    set (new := {| hv_base := nb; hv_len := 0; hv_cap := 2 ^ j; hv_mem := mem_empty |}).
    destruct (hv_write new chain_vt (chain_cells (fq_cur q))) as [new'|] eqn:Ew; cbn [rbind]; [|discriminate].
    assert (Hwfn : hv_wf new).
    { unfold hv_wf, cap_ok, new. cbn [hv_base hv_len hv_cap]. repeat split; try lia; auto. right. eauto. }
    destruct (hv_write_ok _ _ _ _ Hwfn (enc_chain_wf _) Ew) as (Eb & Ecap & El & Hwf' & Hr1 & _ & _).
    cbn [fq_cur fq_chain]. unfold new in Eb, Ecap, El, Hr1. cbn [hv_base hv_len hv_cap] in Eb, Ecap, El, Hr1.
    rewrite Z.add_0_r in El, Hr1.
    assert (Hn32 : next_addr nb chain_vt = nb + 32).
    { unfold next_addr, data_addr, chain_vt. cbn [vt_align vt_size]. change CHAIN_PAYLOAD with 24.
      rewrite (up_id (nb + 8) 8) by lia. rewrite up_id by lia. lia. }
    unfold csub. rewrite Ecap.
    destruct (hv_len new' <=? 2 ^ j) eqn:El2; cbn [olift rbind]; [|discriminate].
    destruct (2 ^ j - hv_len new' <? req) eqn:Ea; [discriminate|]. apply Z.ltb_ge in Ea.
    intros H. injection H as <-. cbn [fq_cur fq_chain].
    split; [|split; [lia|split; [assumption|split; [rewrite Ecap; eauto|lia]]]].
    unfold fq_inv. cbn [fq_cur fq_chain chain_inv]. split; [assumption|].
    exists ents, []. split; [symmetry; apply app_nil_r|]. split; [exact Hinv|]. split; [assumption|].
    split; [|constructor]. cbn [map]. rewrite El, Eb. exact Hr1.
Qed.

(** push: the abstraction commutes *)
Lemma push_spec q ents e nb q' : fq_inv q ents -> entry_wf e -> base_ok nb ->
  fq_push q e nb = Ok q' -> fq_inv q' (ents ++ [e]).
Proof.
  intros Hinv He Hnb. unfold fq_push, fq_push_raw.
  pose proof He as (Hs & (k & Hk & Ha) & Hl).
  cbn [user_vt vt_size vt_align].
  destruct (push_req _ _) as [req|] eqn:Er; cbn [olift rbind]; [|discriminate].
  rewrite Ha in Er. apply push_req_some in Er; [|assumption|assumption]. destruct Er as [-> Hrlt].
  assert (Hreq0 : 0 <= req_spec (e_size e) (2 ^ k)).
  { unfold req_spec. pose proof (up_ge (Z.max 8 (2 ^ k) + e_size e) 8). lia. }
  destruct (csub _ _) as [avail|]; cbn [olift rbind]; [|discriminate].
  destruct (_ >? avail).
  - destruct (expand_storage q _ nb) as [q1|] eqn:Ex; cbn [rbind]; [|discriminate].
    destruct (expand_spec _ _ _ _ _ Hinv Hnb Hreq0 Ex) as (Hinv1 & _).
    destruct (csub _ _) as [avail1|]; cbn [olift rbind]; [|discriminate].
    destruct (_ >? avail1); [discriminate|]. cbn [rbind].
    destruct (hv_write _ _ _) as [h'|] eqn:Ew; cbn [rbind]; [|discriminate].
    intros H. injection H as <-. unfold fq_inv. cbn [fq_cur fq_chain].
    eapply chain_inv_write; eassumption.
  - cbn [rbind].
    destruct (hv_write _ _ _) as [h'|] eqn:Ew; cbn [rbind]; [|discriminate].
    intros H. injection H as <-. unfold fq_inv. cbn [fq_cur fq_chain].
    eapply chain_inv_write; eassumption.
Qed.

(** execute: delivers the pending closures in push order; afterwards the same allocation, empty *)
Lemma execute_spec q ents : fq_inv q ents ->
  exists q', fq_execute q = Ok (ents, q') /\ fq_inv q' [] /\
    hv_base (fq_cur q') = hv_base (fq_cur q) /\ hv_cap (fq_cur q') = hv_cap (fq_cur q) /\ hv_len (fq_cur q') = 0.
Proof.
  intros Hinv. unfold fq_execute. rewrite (drain_spec _ _ _ Hinv). cbn [rbind].
  eexists. split; [reflexivity|]. unfold hv_reset at 2 3 4. cbn [fq_cur hv_base hv_cap hv_len].
  split; [|auto].
  pose proof (chain_inv_wf _ _ _ Hinv) as (Hb0 & Hb8 & Hlen & Hl8 & Hcapok).
  unfold fq_inv. cbn [fq_cur fq_chain chain_inv hv_reset hv_base hv_len hv_mem map repr].
  unfold hv_wf, hv_reset. cbn [hv_base hv_len hv_cap]. repeat split; try lia; auto.
Qed.

Lemma drop_spec q ents : fq_inv q ents -> fq_drop q = Ok ents.
Proof. intros Hinv. unfold fq_drop. apply drain_spec. exact Hinv. Qed.

Lemma is_empty_spec q ents : fq_inv q ents -> fq_is_empty q = bq_is_empty ents.
Proof.
  intros Hinv. unfold fq_is_empty, bq_is_empty.
  pose proof (chain_inv_empty _ _ _ Hinv) as H.
  destruct ents as [|e ents].
  - apply Z.eqb_eq. apply H. reflexivity.
  - apply Z.eqb_neq. intros E. apply H in E. discriminate.
Qed.

(** the monitor [geom_ok] holds of every represented queue: what verif_geometry() may report *)
Lemma geom_ok_spec q ents : fq_inv q ents -> geom_ok (fq_geometry q) = true.
Proof.
  intros Hinv. pose proof (chain_inv_wf _ _ _ Hinv) as (Hb0 & Hb8 & Hlen & Hl8 & Hcapok).
  unfold geom_ok, fq_geometry. destruct Hcapok as [E0|(j & Hj & Ej & Hia)].
  - rewrite E0 in *. replace (hv_len (fq_cur q)) with 0 by lia. reflexivity.
  - apply orb_true_iff. right.
    pose proof (pow2_pos j Hj).
    repeat (apply andb_true_iff; split); try (apply Z.leb_le; lia); try (apply Z.eqb_eq; assumption).
    + apply Z.ltb_lt. lia.
    + rewrite Ej, Z.log2_pow2 by assumption. apply Z.eqb_refl.
Qed.
