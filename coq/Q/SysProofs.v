(** Layer Q: refinement lifted to operation sequences over several queues with nested pushes
    (the statement of property C17 on the model). *)
From Coq Require Import ZArith List Bool Lia.
From Stk Require Import Lib.U Gen.SrcFlat Q.Monitor Q.Arith Q.Flat Q.Boxed Q.Sys Q.MemProofs Q.FlatProofs.
Import ListNotations.
Local Open Scope Z_scope.

(** hypotheses on the inputs: closures have a non-negative size, a power-of-two alignment and as many
    captured bytes as their size; the allocator answers non-negative multiples of 8.  A push_box
    closure is the 16-byte fat pointer. *)
Definition pushed_entry (p : pushreq) : entry := if p_boxed p then box_wrap (p_entry p) else p_entry p.
Definition pushreq_wf (p : pushreq) : Prop := base_ok (p_base p) /\ entry_wf (pushed_entry p).
Definition op_wf (o : op) : Prop := match o with OPush p => pushreq_wf p | _ => True end.
Definition prog_wf (prog : entry -> list pushreq) : Prop := forall e, Forall pushreq_wf (prog e).

(** the abstraction function: the pending closures, as the queue itself would deliver them *)
Definition abs (q : fq) : bq := match fq_drop q with Ok es => es | Err _ => [] end.

Lemma abs_inv q l : fq_inv q l -> abs q = l.
Proof. intros H. unfold abs. rewrite (drop_spec _ _ H). reflexivity. Qed.

Definition sim (fs : list fq) (bs : list bq) : Prop := Forall2 fq_inv fs bs.

Lemma sim_abs fs bs : sim fs bs -> bs = map abs fs.
Proof.
  induction 1 as [|q l fs bs H _ IH]; cbn [map]; [reflexivity|].
  rewrite (abs_inv _ _ H), IH. reflexivity.
Qed.

Lemma sim_nth fs bs i q : sim fs bs -> nth_error fs i = Some q ->
  exists l, nth_error bs i = Some l /\ fq_inv q l.
Proof.
  intros H. revert i. induction H as [|q0 l0 fs bs H0 _ IH]; intros [|i] E; cbn [nth_error] in *; try discriminate.
  - injection E as <-. eauto.
  - apply IH. exact E.
Qed.

Lemma sim_nth_none fs bs i : sim fs bs -> nth_error fs i = None -> nth_error bs i = None.
Proof.
  intros H. revert i. induction H as [|q0 l0 fs bs H0 _ IH]; intros [|i] E; cbn [nth_error] in *; try discriminate; auto.
Qed.

Lemma sim_set_nth fs bs i q l : sim fs bs -> fq_inv q l -> sim (set_nth fs i q) (set_nth bs i l).
Proof.
  intros H Hq. revert i. induction H as [|q0 l0 fs bs H0 H IH]; intros [|i]; cbn [set_nth]; constructor; auto.
  - apply IH.
Qed.

Lemma init_sim n : sim (init flat_impl n) (init boxed_impl n).
Proof.
  unfold init. cbn [q_new flat_impl boxed_impl].
  induction n; cbn [repeat]; constructor; [apply fq_inv_new|assumption].
Qed.

Section Sim.
  Variable prog : entry -> list pushreq.
  Hypothesis Hprog : prog_wf prog.

  Lemma do_push_sim fs bs p fs' : sim fs bs -> pushreq_wf p ->
    do_push flat_impl fs p = Ok fs' ->
    exists bs', do_push boxed_impl bs p = Ok bs' /\ sim fs' bs'.
  Proof.
    intros Hs (Hb & He). unfold do_push. fold (pushed_entry p).
    destruct (nth_error fs (p_queue p)) as [q|] eqn:En; [|discriminate].
    destruct (sim_nth _ _ _ _ Hs En) as (l & -> & Hq).
    cbn [q_push flat_impl boxed_impl rbind].
    destruct (fq_push q _ _) as [q'|] eqn:Ep; cbn [rbind]; [|discriminate].
    intros H. injection H as <-.
    eexists. split; [reflexivity|].
    apply sim_set_nth; [assumption|]. unfold bq_push. eapply push_spec; eassumption.
  Qed.

  Lemma do_script_sim i ps : forall fs bs fs', sim fs bs -> Forall pushreq_wf ps ->
    do_script flat_impl i fs ps = Ok fs' ->
    exists bs', do_script boxed_impl i bs ps = Ok bs' /\ sim fs' bs'.
  Proof.
    induction ps as [|p ps IH]; intros fs bs fs' Hs Hw; cbn [do_script].
    - intros H. injection H as <-. eauto.
    - inversion Hw as [|? ? Hp Hps]; subst.
      destruct (Nat.eqb (p_queue p) i); [discriminate|].
      destruct (do_push flat_impl fs p) as [fs1|] eqn:E1; cbn [rbind]; [|discriminate].
      destruct (do_push_sim _ _ _ _ Hs Hp E1) as (bs1 & -> & Hs1). cbn [rbind].
      apply IH; assumption.
  Qed.

  Lemma run_entries_sim i es : forall fs bs fs', sim fs bs ->
    run_entries flat_impl prog i fs es = Ok fs' ->
    exists bs', run_entries boxed_impl prog i bs es = Ok bs' /\ sim fs' bs'.
  Proof.
    induction es as [|e es IH]; intros fs bs fs' Hs; cbn [run_entries].
    - intros H. injection H as <-. eauto.
    - destruct (do_script flat_impl i fs (prog e)) as [fs1|] eqn:E1; cbn [rbind]; [|discriminate].
      destruct (do_script_sim _ _ _ _ _ Hs (Hprog e) E1) as (bs1 & -> & Hs1). cbn [rbind].
      apply IH; assumption.
  Qed.

  Lemma step_sim fs bs o evs fs' : sim fs bs -> op_wf o ->
    step flat_impl prog fs o = Ok (evs, fs') ->
    exists bs', step boxed_impl prog bs o = Ok (evs, bs') /\ sim fs' bs'.
  Proof.
    intros Hs Hw. destruct o as [p|i|i|i]; cbn [step op_wf] in *.
    - destruct (do_push flat_impl fs p) as [fs1|] eqn:E1; cbn [rbind]; [|discriminate].
      destruct (do_push_sim _ _ _ _ Hs Hw E1) as (bs1 & -> & Hs1). cbn [rbind].
      intros H. injection H as <- <-. eauto.
    - destruct (nth_error fs i) as [q|] eqn:En; [|discriminate].
      destruct (sim_nth _ _ _ _ Hs En) as (l & -> & Hq).
      cbn [q_execute flat_impl boxed_impl rbind].
      destruct (execute_spec _ _ Hq) as (q' & -> & Hq' & _). cbn [rbind bq_execute].
      destruct (run_entries flat_impl prog i _ l) as [fs1|] eqn:E1; cbn [rbind]; [|discriminate].
      destruct (run_entries_sim _ _ _ (set_nth bs i []) _ (sim_set_nth _ _ i _ _ Hs Hq') E1) as (bs1 & -> & Hs1).
      cbn [rbind]. intros H. injection H as <- <-. eauto.
    - destruct (nth_error fs i) as [q|] eqn:En; [|discriminate].
      destruct (sim_nth _ _ _ _ Hs En) as (l & -> & Hq).
      cbn [q_is_empty flat_impl boxed_impl]. rewrite (is_empty_spec _ _ Hq).
      intros H. injection H as <- <-. eauto.
    - destruct (nth_error fs i) as [q|] eqn:En; [|discriminate].
      destruct (sim_nth _ _ _ _ Hs En) as (l & -> & Hq).
      cbn [q_drop q_new flat_impl boxed_impl rbind]. rewrite (drop_spec _ _ Hq). cbn [rbind bq_drop].
      intros H. injection H as <- <-. eexists. split; [reflexivity|].
      apply sim_set_nth; [assumption|apply fq_inv_new].
  Qed.

  Lemma run_sim ops : forall fs bs evs fs', sim fs bs -> Forall op_wf ops ->
    run flat_impl prog fs ops = Ok (evs, fs') ->
    exists bs', run boxed_impl prog bs ops = Ok (evs, bs') /\ sim fs' bs'.
  Proof.
    induction ops as [|o ops IH]; intros fs bs evs fs' Hs Hw; cbn [run].
    - intros H. injection H as <- <-. eauto.
    - inversion Hw as [|? ? Ho Hops]; subst.
      destruct (step flat_impl prog fs o) as [[evs1 fs1]|] eqn:E1; cbn [rbind]; [|discriminate].
      destruct (step_sim _ _ _ _ _ Hs Ho E1) as (bs1 & -> & Hs1). cbn [rbind].
      destruct (run flat_impl prog fs1 ops) as [[evs2 fs2]|] eqn:E2; cbn [rbind]; [|discriminate].
      destruct (IH _ _ _ _ Hs1 Hops E2) as (bs2 & -> & Hs2). cbn [rbind].
      intros H. injection H as <- <-. eauto.
  Qed.
End Sim.

(** ** Property C17 on the model.
    For every number of queues, every behaviour [prog] of running closures (pushes onto other queues),
    every operation sequence over closures of any size, any power-of-two alignment, any captured bytes,
    and any 8-aligned placement of every buffer: whenever the flat queue completes the sequence, the
    boxed queue produces exactly the same events -- the same closures run in the same order with the
    same captured bytes, the same closures dropped, the same is_empty answers -- and ends in the
    abstraction of the flat state; and every flat queue then still holds (delivers) exactly those
    pending closures. *)
Theorem flat_refines_boxed_run prog n ops evs fs :
  prog_wf prog -> Forall op_wf ops ->
  run flat_impl prog (init flat_impl n) ops = Ok (evs, fs) ->
  run boxed_impl prog (init boxed_impl n) ops = Ok (evs, map abs fs) /\
  Forall (fun q => fq_drop q = Ok (abs q) /\ fq_is_empty q = bq_is_empty (abs q)) fs.
Proof.
  intros Hp Hw Hr.
  destruct (run_sim prog Hp ops _ _ _ _ (init_sim n) Hw Hr) as (bs & Hb & Hs).
  rewrite <- (sim_abs _ _ Hs). split; [exact Hb|].
  clear - Hs. induction Hs as [|q l fs bs H _ IH]; constructor; [|assumption].
  rewrite (abs_inv _ _ H). split; [apply drop_spec|apply is_empty_spec]; assumption.
Qed.

(** every queue of every state reached by an operation sequence has a geometry the monitor accepts
    (apply to the prefixes of a sequence for the intermediate states) *)
Theorem flat_geom_ok_run prog n ops evs fs :
  prog_wf prog -> Forall op_wf ops ->
  run flat_impl prog (init flat_impl n) ops = Ok (evs, fs) ->
  Forall (fun q => geom_ok (fq_geometry q) = true) fs.
Proof.
  intros Hp Hw Hr.
  destruct (run_sim prog Hp ops _ _ _ _ (init_sim n) Hw Hr) as (bs & _ & Hs).
  clear - Hs. induction Hs as [|q l fs bs H _ IH]; constructor; [|assumption].
  eapply geom_ok_spec; eassumption.
Qed.
