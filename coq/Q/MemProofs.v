(** Layer Q: facts about the block memory of Q/Flat.v (reads after writes, frames, decoding). *)
From Coq Require Import ZArith List Bool Lia FMapPositive.
From Stk Require Import Lib.U Q.Flat.
Import ListNotations.
Local Open Scope Z_scope.

Lemma zkey_inj a b : zkey a = zkey b -> a = b.
Proof. destruct a, b; cbn; intros H; try discriminate; try injection H as ->; reflexivity. Qed.

Lemma rd_wr_same m a c : rd (wr m a c) a = c.
Proof. unfold rd, wr. rewrite PositiveMap.gss. reflexivity. Qed.

Lemma rd_wr_other m a b c : a <> b -> rd (wr m b c) a = rd m a.
Proof.
  intros H. unfold rd, wr. rewrite PositiveMap.gso; [reflexivity|].
  intros E. apply zkey_inj in E. contradiction.
Qed.

(** a write of a cell list touches only its own range *)
Lemma rd_wr_list_out cs : forall m p a,
  a < p \/ p + Z.of_nat (length cs) <= a -> rd (wr_list m p cs) a = rd m a.
Proof.
  induction cs as [|c cs IH]; intros m p a H; cbn [wr_list]; [reflexivity|].
  cbn [length] in H. rewrite IH by lia. apply rd_wr_other. lia.
Qed.

Lemma rd_list_ext n : forall m m' p,
  (forall a, p <= a < p + Z.of_nat n -> rd m' a = rd m a) -> rd_list m' p n = rd_list m p n.
Proof.
  induction n as [|n IH]; intros m m' p H; cbn [rd_list]; [reflexivity|].
  f_equal; [apply H; lia|]. apply IH. intros a Ha. apply H. lia.
Qed.

(** what was written is read back *)
Lemma rd_list_wr_list_same cs : forall m p, rd_list (wr_list m p cs) p (length cs) = cs.
Proof.
  induction cs as [|c cs IH]; intros m p; cbn [wr_list rd_list length]; [reflexivity|].
  f_equal; [|apply IH].
  rewrite rd_wr_list_out by lia. apply rd_wr_same.
Qed.

(** a read is not affected by a write to a disjoint range *)
Lemma rd_list_wr_list_disj cs m q p n :
  p + Z.of_nat n <= q \/ q + Z.of_nat (length cs) <= p ->
  rd_list (wr_list m q cs) p n = rd_list m p n.
Proof. intros H. apply rd_list_ext. intros a Ha. apply rd_wr_list_out. lia. Qed.

Lemma rd_list_app m n1 : forall p n2,
  rd_list m p (n1 + n2) = rd_list m p n1 ++ rd_list m (p + Z.of_nat n1) n2.
Proof.
  induction n1 as [|n1 IH]; intros p n2.
  - cbn. f_equal. lia.
  - cbn [rd_list Nat.add app]. f_equal. rewrite IH. do 2 f_equal. lia.
Qed.

Lemma rd_list_length m n : forall p, length (rd_list m p n) = n.
Proof. induction n; intros; cbn; auto. Qed.

(** decoding *)
Lemma dec_vp_cells v : dec_vp (vp_cells v) = Some v.
Proof. reflexivity. Qed.
Lemma dec_word_cells w : dec_word (word_cells w) = Some w.
Proof. reflexivity. Qed.
Lemma dec_bytes_map l : dec_bytes (map CByte l) = Some l.
Proof. induction l as [|b l IH]; cbn; [reflexivity|]. rewrite IH. reflexivity. Qed.

Lemma vp_cells_length v : length (vp_cells v) = 8%nat. Proof. reflexivity. Qed.
Lemma word_cells_length w : length (word_cells w) = 8%nat. Proof. reflexivity. Qed.
