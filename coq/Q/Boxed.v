(** Layer Q: model of /repo/src/queue/boxed.rs -- a Vec<Box<dyn FnOnce>>, i.e. a plain list. *)
From Coq Require Import ZArith List Bool.
From Stk Require Import Q.Flat.
Import ListNotations.

Definition bq : Type := list entry.

Definition bq_new : bq := [].
(** push / push_box: self.vec.push(..) *)
Definition bq_push (q : bq) (e : entry) : bq := q ++ [e].
(** is_empty: self.vec.is_empty() *)
Definition bq_is_empty (q : bq) : bool := match q with [] => true | _ => false end.
(** execute: for f in self.vec.drain(..) { f(context) } -- runs in index order, leaves the Vec empty *)
Definition bq_execute (q : bq) : list entry * bq := (q, []).
(** drop of the Vec: elements are dropped in index order *)
Definition bq_drop (q : bq) : list entry := q.
