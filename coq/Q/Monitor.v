(** Layer Q: executable specification-level predicates ("monitors") evaluated on REAL traces.

    [up p a] is the mathematical "least multiple of a that is >= p"; the generated mask expressions
    are proved equal to it in FlatProofs.  [geom_ok] is what verif_geometry() may report for any
    reachable queue.  [req_spec] is the closed form of the worst-case space requirement. *)
From Coq Require Import ZArith List Bool.
From Stk Require Import Lib.U Gen.SrcFlat.
Import ListNotations.
Local Open Scope Z_scope.

Definition up (p a : Z) : Z := p + (- p) mod a.

(** closed form of HVec::push's [req] for a value of (size, align) *)
Definition req_spec (size align : Z) : Z := up (Z.max 8 align + size) 8.

Definition is_pow2 (n : Z) : bool := (0 <? n) && (2 ^ Z.log2 n =? n).

(** (base, len, cap) of a reachable queue: unallocated, or a power-of-two capacity of at least
    INITIAL_ALLOCATION (the generated constant: 1 KiB) at an 8-aligned address, with an 8-aligned fill
    level inside it. *)
Definition geom_ok (g : Z * Z * Z) : bool :=
  let '(base, len, cap) := g in
  ((cap =? 0) && (len =? 0))
  || ((INITIAL_ALLOCATION <=? cap) && is_pow2 cap && (base mod 8 =? 0) && (0 <=? len) && (len <=? cap) && (len mod 8 =? 0)).
