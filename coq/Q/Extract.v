(** Extraction of the Layer Q models (evaluation of the model in the correspondence check only). *)
From Coq Require Import ZArith List Bool Extraction ExtrOcamlBasic.
From Stk Require Import Lib.U Gen.SrcFlat Q.Flat Q.Boxed Q.Sys Q.Monitor.

Extraction Language OCaml.
Extraction "extracted/q_model.ml"
  flat_impl boxed_impl run step init fq_geometry box_wrap
  push_req align_ptr align_off expand_size INITIAL_ALLOCATION CHAIN_ITEM_SIZE
  geom_ok req_spec up.
