(** Layer Q: operation sequences over several queues, generic in the queue implementation.

    An operation sequence is a list of [op]s over [n] queues.  A closure that runs may push further
    closures onto OTHER queues: what a closure does when it runs is a function [prog] of the closure
    as it is read back from the queue (identity, layout, captured bytes) -- so a queue that returned
    different bytes would also behave differently.  Pushing onto the queue that is being executed is
    not expressible in safe Rust (the queue is mutably borrowed) and is an error here.

    The same [run] is instantiated with the flat queue ([flat_impl]) and the boxed queue ([boxed_impl]). *)
From Coq Require Import ZArith List Bool.
From Stk Require Import Lib.U Q.Flat Q.Boxed.
Import ListNotations.
Local Open Scope Z_scope.

(** A queue implementation.  [q_push] receives the address the allocator would return if this
    push allocates (ignored by the boxed queue). *)
Record qimpl (S : Type) : Type := {
  q_new : S;
  q_push : S -> entry -> Z -> res S;
  q_is_empty : S -> bool;
  q_execute : S -> res (list entry * S);
  q_drop : S -> res (list entry);
}.
Arguments q_new {S}. Arguments q_push {S}. Arguments q_is_empty {S}. Arguments q_execute {S}. Arguments q_drop {S}.

Definition flat_impl : qimpl fq :=
  {| q_new := fq_new; q_push := fq_push; q_is_empty := fq_is_empty; q_execute := fq_execute; q_drop := fq_drop |}.
Definition boxed_impl : qimpl bq :=
  {| q_new := bq_new; q_push := fun q e _ => Ok (bq_push q e); q_is_empty := bq_is_empty;
     q_execute := fun q => Ok (bq_execute q); q_drop := fun q => Ok (bq_drop q) |}.

(** push_box(b): the flat queue stores the closure [move |s| value(s)], whose only capture is the
    Box<dyn FnOnce> fat pointer: 16 bytes, alignment 8; the boxed queue stores the fat pointer itself. *)
Definition box_wrap (e : entry) : entry :=
  {| e_id := e_id e; e_size := 16; e_align := 8; e_data := e_data e |}.

(** One push request: target queue, push_box?, the closure, allocator answer. *)
Record pushreq : Type := { p_queue : nat; p_boxed : bool; p_entry : entry; p_base : Z }.

Inductive op : Type :=
| OPush (p : pushreq)          (* push / push_box *)
| OExecute (q : nat)           (* execute(&mut ctx) *)
| OIsEmpty (q : nat)           (* is_empty() *)
| ODrop (q : nat).             (* drop(queue); a fresh FnOnceQueue::new() takes its place *)

Inductive ev : Type :=
| EvRun (e : entry)            (* closure called, with the bytes it found *)
| EvDrop (e : entry)           (* closure dropped un-run, with the bytes it held *)
| EvEmpty (b : bool).          (* result of is_empty *)

Fixpoint set_nth {A} (l : list A) (n : nat) (a : A) : list A :=
  match l, n with
  | [], _ => []
  | _ :: t, O => a :: t
  | x :: t, Datatypes.S n' => x :: set_nth t n' a
  end.

Section Run.
  Context {S : Type} (I : qimpl S).
  (** what a closure does when it runs: the pushes it performs *)
  Context (prog : entry -> list pushreq).

  Definition do_push (st : list S) (p : pushreq) : res (list S) :=
    match nth_error st (p_queue p) with
    | None => Err EBadQueue
    | Some s =>
      s' <-! q_push I s (if p_boxed p then box_wrap (p_entry p) else p_entry p) (p_base p) ;;
      Ok (set_nth st (p_queue p) s')
    end.

  (** the pushes of one running closure of queue [i] *)
  Fixpoint do_script (i : nat) (st : list S) (ps : list pushreq) : res (list S) :=
    match ps with
    | [] => Ok st
    | p :: ps' =>
      if Nat.eqb (p_queue p) i then Err ENestedSelf else
      st' <-! do_push st p ;;
      do_script i st' ps'
    end.

  (** the closures of queue [i] run in the order the queue delivered them *)
  Fixpoint run_entries (i : nat) (st : list S) (es : list entry) : res (list S) :=
    match es with
    | [] => Ok st
    | e :: es' =>
      st' <-! do_script i st (prog e) ;;
      run_entries i st' es'
    end.

  Definition step (st : list S) (o : op) : res (list ev * list S) :=
    match o with
    | OPush p => st' <-! do_push st p ;; Ok ([], st')
    | OExecute i =>
      match nth_error st i with
      | None => Err EBadQueue
      | Some s =>
        '(es, s') <-! q_execute I s ;;
        st' <-! run_entries i (set_nth st i s') es ;;
        Ok (map EvRun es, st')
      end
    | OIsEmpty i =>
      match nth_error st i with
      | None => Err EBadQueue
      | Some s => Ok ([EvEmpty (q_is_empty I s)], st)
      end
    | ODrop i =>
      match nth_error st i with
      | None => Err EBadQueue
      | Some s =>
        es <-! q_drop I s ;;
        Ok (map EvDrop es, set_nth st i (q_new I))
      end
    end.

  Fixpoint run (st : list S) (ops : list op) : res (list ev * list S) :=
    match ops with
    | [] => Ok ([], st)
    | o :: ops' =>
      '(evs, st') <-! step st o ;;
      '(evs', st'') <-! run st' ops' ;;
      Ok (evs ++ evs', st'')
    end.

  Definition init (n : nat) : list S := repeat (q_new I) n.
End Run.
